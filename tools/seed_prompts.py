#!/usr/bin/env python3
"""Prepare scratch worktrees and the briefs for seed-writing sub-agents (they receive only one property's text).
usage: tools/seed_prompts.py <root-dir> C01 C02 ...   (worktrees under <root-dir>/<ID>, briefs <root-dir>/<ID>.prompt.txt)"""
import json, os, subprocess, sys
V = os.path.dirname(os.path.dirname(os.path.abspath(__file__)))
TEMPLATE = r'''You are testing a verification effort by seeding a realistic defect. Work ONLY inside the git worktree @ROOT@/@ID@ (a checkout of the Python library PyClifford: packages `pyclifford/` (numpy + numba) and `torchclifford/` (PyTorch port); README.md and doc/ describe it). Do not read or touch anything outside @ROOT@/@ID@ except the Python interpreter /venv/bin/python (which has numpy, numba, torch, qutip, pytest installed). In particular do NOT look at /verif or /repo.

The property under test (this text is all you are given about what is being verified):

@PROP@

Your job: produce TWO different, independent changes to the library source (each a small realistic edit a developer could plausibly make: a refactor slip, an off-by-one, a wrong index or sign, a dropped modulo, a swapped argument, an optimisation that is only valid in the common case, two edits in different places that each look fine alone, …) such that, for each change separately:
 1. the library still imports and the existing test-suite still passes exactly as before. Check with:  cd @ROOT@/@ID@ && /venv/bin/python -m pytest -q -p no:cacheprovider --timeout=900 pyclifford/tests   (the pyclifford tests take ~1 minute; `pyclifford/tests/test_stabilizer.py::test_overlap` fails randomly on the unchanged tree and the statistical `test_measure` very rarely; ignore those two (run without -x, or with -k "not overlap") — your change must not make any additional test fail). If your change touches torchclifford also run torchclifford/tests the same way.
 2. the property above is violated, but NOT in a way that ordinary use exposes at once: the violation should need something specific to manifest — an unusual but legal input (particular phases, signs, ranks, masks, qubit orders, sizes), a particular branch of the random outcomes, a multi-step sequence of operations, or two cooperating sites. Prefer subtle over blatant: a change that makes every call wrong is of little use. For this round, do NOT use the 'stale cache / memoisation / shared buffer / missing copy' family of defects (they have been tried extensively already); aim instead for defects in the logic itself: a wrong branch condition that matters only for a rare configuration, an index or ordering slip that shows only for particular positions or sizes, an arithmetic slip that cancels in the common cases, a boundary case (first/last qubit, empty or full region, rank 0 or N, identical operands), an interaction of two code sites that each look right, or an error path that no longer triggers.
 3. you have a demonstration: a small self-contained script `demo.py` (run as `cd @ROOT@/@ID@ && /venv/bin/python SEED/<k>/demo.py`; insert `sys.path.insert(0, '@ROOT@/@ID@')` at its top so it imports the worktree's packages) that exits with status 1 and prints what went wrong when the change is applied, and exits 0 on the unchanged tree. The demo must check the property itself against ground truth that does not depend on the library (dense matrices with numpy, textbook facts), not against a saved output.

Deliver, for k = 1 and 2, a directory @ROOT@/@ID@/SEED/<k>/ containing: `patch.diff` (output of `git diff` for that change alone, applicable with `git apply` to the unchanged tree), `demo.py`, and `meta.json` with keys: "property" ("@ID@"), "summary" (one sentence: what was changed), "needs" (what specific input / sequence / branch is needed for the violation to manifest), "files" (list of files touched), "tests_run" (the commands you ran and their pass/fail counts before and after). NEVER use `git stash` (the stash is shared between all worktrees of the repository and other people are working in sibling worktrees): use only `git diff > file`, `git checkout -- .`, `git apply file`. Leave the worktree itself UNCHANGED at the end (`git checkout -- .` after saving each patch; SEED/ is untracked and stays). Verify each patch by: git apply SEED/<k>/patch.diff → run tests → run demo (must exit 1) → git checkout -- . → run demo (must exit 0).

Final report: for each of the two changes, the summary, what it needs to manifest, and the verification you performed.
'''
EXTRA = os.environ.get('SEED_EXTRA', '')
root = sys.argv[1]
ids = sys.argv[2:]
os.makedirs(root, exist_ok=True)
subprocess.run(['git', '-C', '/repo', 'worktree', 'prune'])
for l in open(os.path.join(V, 'properties.jsonl')):
    d = json.loads(l)
    if d['id'] in ids:
        wt = os.path.join(root, d['id'])
        if not os.path.isdir(wt):
            subprocess.run(['git', '-C', '/repo', 'worktree', 'add', '-q', '--detach', wt, 'HEAD'], check=True)
        prop = "%s — %s\n\nStatement: %s\n\nQuantified over: %s\n" % (d['id'], d['title'], d['statement'], d['quantifier']['text'])
        open(os.path.join(root, d['id'] + '.prompt.txt'), 'w').write((TEMPLATE + ('\n' + EXTRA + '\n' if EXTRA else '')).replace('@ROOT@', root).replace('@ID@', d['id']).replace('@PROP@', prop))
        print('prepared', wt)
