#!/bin/bash
# integrate_seeds.sh <root> <offset> <ids...>: copy <root>/<ID>/SEED/<k> to seeded/<ID>-<offset+k>, confirm and run the property's check
cd "$(dirname "$0")/.."
root=$1; off=$2; shift 2
for id in "$@"; do
  for k in 1 2; do
    src=$root/$id/SEED/$k
    [ -f $src/patch.diff ] || { echo "missing $src"; continue; }
    dst=seeded/$id-$((off+k))
    mkdir -p $dst
    cp $src/patch.diff $src/demo.py $src/meta.json $dst/
    /venv/bin/python tools/seedtest.py $dst --props ${PROPS:-$id} > /dev/null 2>&1
    python3 - <<PY
import json
r=json.load(open('$dst/result.json'))
print('$dst', r.get('demo_unchanged_exit'), r.get('demo_changed_exit'), (r.get('stable_tests') or {}).get('passed'), (r.get('stable_tests') or {}).get('failed_ids'), {k:(v['exit'], (v.get('first_failure') or {}).get('site') if isinstance(v.get('first_failure'),dict) else None) for k,v in r.get('checks',{}).items()})
PY
  done
done
