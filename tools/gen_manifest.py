#!/usr/bin/env python3
"""(re)generate /verif/MANIFEST.json from the per-property table below and lean/obligations.json"""
import json, os
V = os.path.dirname(os.path.dirname(os.path.abspath(__file__)))
obl = json.load(open(os.path.join(V, 'lean', 'obligations.json')))
T = {
 'C01': ('product = matrix product on kets (all N, phases), faithfulness of the denotation, commutation indicator, associativity, squares, chains, batch_dot indexing', 'acq ipow p0 acq_mat mul chains batch_dot; one-qubit tables regenerated'),
 'C02': ('ring identity for (1-iG)P(1+iG); rotate = P / i*P*G exactly; -G undoes G; four rotations; multiplicativity; acq preserved; mask = generator embedded among identity wires; unmasked qubits untouched', 'clifford_rotate(_signless), rotate_by on Pauli/list/polynomial/state with and without masks, rotation map'),
 'C03': ('transform by a valid map: identity, generators, phases, products (phase-exact homomorphism via block regrouping), commutation and Hermiticity preserved, masked = embedded map, rotation map valid and acting as the rotation', 'pauli_combine, pauli_transform, transform_by(mask), embed'),
 'C04': ('z2inv is a two-sided GF(2) inverse and raises only on singular input; compose acts as first-then-second, is valid and associative; identity neutral; faithfulness; inverse exists for every valid map, is valid and two-sided; inverse of a composition', 'z2inv, compose, inverse, identity_map; operand snapshots'),
 'C05': ('tableau invariant for constructors, rotations (masked), measurement of Hermitian observables for every coin, lists, projection, post-selection; the internal assertion never fires (symplectic nondegeneracy)', 'random walks of all public operations from every constructor; exhaustive closure of the N=1 (quick) / N<=2 (thorough) tableau space'),
 'C06': ('measurement refines the group-level projection postulate: determined branch returns the eigenvalue fixed by the state and leaves it unchanged; random branch iff +-O not a stabilizer, outcome follows the coin, (-1)^out O and all commuting former stabilizers stabilize the post-state, rank drops iff O commuted with the whole group; repeat gives the same outcome with probability one', 'stabilizer_measure / StabilizerState.measure with observed and tape-controlled coins, all coin sequences, state arguments, repeatability'),
 'C07': ('expectation = +1/-1/0 iff +O / -O / neither is a stabilizer; agreement with measurement; one step of the overlap chain (factor 1, 0, 1/2)', 'stabilizer_expect, expect on lists/Pauli/polynomials (phases i,-i), overlaps with states of any rank, get_prob over all bit strings'),
 'C08': ('z2rank is the GF(2) rank (kernel count 2^(rows-rank)); mixed-branch entropy = |R| - log2 #{group elements supported in R}; empty region 0; whole system r; index lists = masks', 'z2rank on all shapes; entropy on all regions, index lists / tuples / masks, re-mixed generators, complement symmetry'),
 'C09': ('utils.mask; gate locality; model gate forward = gateAct; disjoint gates commute; take/compose soundness: forward of the built circuit = gates one at a time in program order', 'gate programs x {uncompiled, layer-compiled, circuit-compiled} x {CliffordCircuit, Circuit} x {original, copy, composed}; lists, polynomials, states'),
 'C10': ('gate-level and program-level inverses (both orders), model gate backward = gateActInv with cached inverse', 'backward after forward and forward after backward, gates / layers / circuits, compiled and not, lists and states'),
 'C11': ('kernel-checked over the tables regenerated from the running code: H, S, X, Y, Z, CNOT in both orientations act by the textbook tables and are valid; C(0..23): 24 valid, pairwise different, closed under compose and inverse, complete', 'all named gates at every position (pair) of registers N<=6; rejection of bad indices and qubit counts'),
 'C12': ('map<->state round trips; to_state = image of |0..0> signs included; zero / one / maximally mixed constructors; anticommuting stabilizers rejected', 'to_state/to_map with signs, all constructors, stabilizer_state in every input format with dense projector products and QuTiP export'),
 'C13': ('each vectorised torch kernel of Model/Torch.lean (acq_grid, clifford_rotate(_signless), pauli_is_onsite, front, condense, map_to_state, state_to_map, batch_dot, vectorizable_stabilizer_expect) equals the pyclifford kernel on every well-formed input', 'every shared kernel and class-level function on the same inputs for both packages and for the models'),
 'C14': ('measurement layer = direct measurement (outcomes, rank, invariant); gates never cross a measurement layer; post-selection returns the Born probability of the signed observable and the projected state; backward post-selects the record and rejects impossible / wrong-length records; circuit level: the layered circuit of any program of gates and measurement calls runs as the sequential trajectory (state, record order, log-probability, coins), record sliced per layer, own record replays', 'programs interleaving gates and measurement layers on pure and mixed inputs; post-selection in every branch; own, supplied, impossible and wrong-length records'),
 'C15': ('coefficient-function semantics: negation, scalars, concatenation, reduce (merge, phases folded, tolerance), sums, products (single terms, distributivity, phase bookkeeping), adding a number, Pauli@monomial dispatch; trace law proved under the hypothesis that identity-string terms carry phase 0 (the unrestricted law is proved FALSE of the code: known finding D13)', 'expression trees over all operand kinds with dyadic coefficients against dense matrices and the model; reduce around the tolerance; QuTiP exports'),
 'C16': ('every sampled pair anticommutes; a uniform tape gives a uniform partner (exactly 2-to-1) and uniform one-qubit pairs; random Pauli and random Clifford maps are valid for every tape and sign draw; sign bits are read back injectively', 'tape-controlled random_pair (all tapes N<=2), random_pauli, random_clifford; validity on the real RNG path; exact-tail-bound statistics'),
 'C17': ('ownership model: copy has equal value and fresh cells, frame rule, history independence (mutate copy / original / arguments), queries allocate only fresh cells, in-place operations never change arguments', 'snapshots / shares_memory / mutate-then-re-observe for every object kind and public method'),
 'C18': ('pauli_diagonalize1 sends every non-identity string to +-Z on the target; pauli_diagonalize2 sends an anticommuting pair to Z and X/Y on the target ; causal mode acts only on qubits >= i0, diagonalises the part supported there and leaves earlier qubits of every operator untouched; diagonalize(state) maps the tableau to |0..0> and back (SBRG is oracle-checked only)', 'diagonalize (all i0, causal on/off), states, kernels, SBRG on commuting and generic Hamiltonians'),
 'C19': ('sampled operators are group elements with the exact sign; the selector of density_matrix enumerates every bit string once; active rows are independent (injective combination); -1 is never a stabilizer; POVM = back-evolved zero state; every snapshot is a valid pure state stabilized with the recorded signs by the pulled-back Z_q and never negates a stabilizer of the base state (non-zero overlap)', 'sample with recorded selector, uniformity bound, density_matrix expansion, classical-shadow snapshots with fixed and random circuits'),
 'C20': ('parse(repr P) = P and parse(tokenize P) = P for all four phases; strings / code arrays / dicts agree; all sign prefixes; token code tables; negation and multiplication by 1,i,-1,-i; weight', 'every accepted description format, lists, index expressions, malformed input'),
}
checks = []
for pid in sorted(T):
    thm, corr = T[pid]
    n = len(obl.get(pid, []))
    checks.append({
        'property_id': pid,
        'quick_cmd': '/venv/bin/python harness/vcheck.py %s --tier quick' % pid,
        'thorough_cmd': '/venv/bin/python harness/vcheck.py %s --tier thorough' % pid,
        'evidence_file': 'evidence/%s.json' % pid,
        'replay_cmd_template': '/venv/bin/python harness/vcheck.py %s --replay {path}' % pid,
        'engine': 'lean-model',
        'level_claimed': {
            'category': 'proof',
            'text': ('Lean 4 theorems (%d registered in lean/obligations.json, all quantified over every N / input / history they mention): %s. '
                     'They are about the hand-written model lean/PyCliffordModel/Model, which is tied to /repo on every run by a differential correspondence '
                     '(%s), and the property itself is evaluated on the implementation against an independent oracle (harness/oracle.py: letter-table Pauli arithmetic, dense matrices, GF(2), stabilizer groups) to produce concrete replays.' % (n, thm, corr)),
            'design_ref': 'DESIGN.md section 8 (%s) and section 12 (as built)' % pid},
        'level_note': 'trusted: Lean 4.33 kernel; axioms propext, Classical.choice, Quot.sound only (audited per theorem on every run; no sorry / native_decide / own axioms); Spec/*.lean as the meaning of the objects; the correspondence harness, its oracle and the driver glue for the tie model<->code over the inputs generated (distribution in the evidence); numpy/numba/torch',
        'technique': 'Lean 4 machine-checked proof about a hand-written executable model + checked model/code correspondence (differential, line protocol) + regenerated finite tables'})
m = {
 'version': 1,
 'setup_cmd': 'cd lean && lake build PyCliffordModel pcdrv',
 'hooks': {'guard': 'PYCLIFFORD_VERIF', 'enable': 'no hooks in /repo are needed: RNG control and call recording are done by harness-side patching of module attributes at run time', 'baseline_off_cmd': 'cd /repo && /venv/bin/python -m pytest -ra -q -p no:cacheprovider --timeout=900 --continue-on-collection-errors', 'source_commits': [], 'add_only': True},
 'engines': [{'name': 'lean-model', 'path': 'lean/', 'serves_properties': sorted(T), 'kind_free_text': 'Lean 4 model (import-free), specifications, proofs, per-property theorem files, compiled line-protocol driver (lean_exe pcdrv)'},
             {'name': 'harness', 'path': 'harness/', 'serves_properties': sorted(T), 'kind_free_text': 'Python correspondence harness (in-process pyclifford/torchclifford from /repo), independent oracle, generators, regeneration of finite tables, evidence and replay writer'}],
 'checks': checks,
 'not_applicable': [],
 'notes': 'Repairs of genuine defects are separate "fix:" commits in /repo, listed with the failing input in KNOWN_FINDINGS.txt (fixed: lines); recorded findings (finding: lines) are printed as KNOWN-FINDING and do not fail a check. VERIF_REPO=<path> points the harness at another checkout (used to test seeded changes in scratch worktrees).'}
json.dump(m, open(os.path.join(V, 'MANIFEST.json'), 'w'), indent=1)
print('wrote MANIFEST with', len(checks), 'checks')
