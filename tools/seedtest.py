#!/usr/bin/env python3
"""seedtest.py <seed-dir> [--props C06,C05|all] [--tier quick]

Confirm a seeded change and run the checks against it, without touching /repo:
  1. fresh scratch worktree of /repo HEAD under /tmp/seedtest/<name>
  2. demo on the unchanged tree must exit 0; apply patch.diff; demo must exit 1
  3. the repository's stable tests must still pass (58 of BASELINE.json)   [--notests to skip]
  4. run the selected checks with VERIF_REPO=<worktree>; report which ones raise a VIOLATION
  5. remove the worktree, restore lean/PyCliffordModel/Generated from /repo
Writes <seed-dir>/result.json."""
import argparse, json, os, re, shutil, subprocess, sys, time

V = os.path.dirname(os.path.dirname(os.path.abspath(__file__)))


def sh(cmd, cwd=None, env=None, timeout=3000):
    p = subprocess.run(cmd, shell=True, cwd=cwd, env=env, stdout=subprocess.PIPE, stderr=subprocess.STDOUT, text=True, timeout=timeout)
    return p.returncode, p.stdout


def main():
    ap = argparse.ArgumentParser()
    ap.add_argument('seed')
    ap.add_argument('--props', default=None)
    ap.add_argument('--tier', default='quick')
    ap.add_argument('--notests', action='store_true')
    a = ap.parse_args()
    seed = os.path.abspath(a.seed)
    meta = json.load(open(os.path.join(seed, 'meta.json')))
    name = os.path.basename(seed.rstrip('/'))
    wt = '/tmp/seedtest/' + name
    os.makedirs('/tmp/seedtest', exist_ok=True)
    sh('git -C /repo worktree remove --force %s' % wt)
    rc, out = sh('git -C /repo worktree add -q --detach %s HEAD' % wt)
    assert rc == 0, out
    res = dict(seed=name, property=meta.get('property'), summary=meta.get('summary'))
    try:
        demo = os.path.join(wt, '_demo.py')
        src = open(os.path.join(seed, 'demo.py')).read()
        src = re.sub(r"/tmp/wt/C\d+", wt, src)
        open(demo, 'w').write(src)
        rc0, o0 = sh('/venv/bin/python _demo.py', cwd=wt, timeout=900)
        res['demo_unchanged_exit'] = rc0
        rc, out = sh('git apply %s' % os.path.join(seed, 'patch.diff'), cwd=wt)
        assert rc == 0, 'patch does not apply: ' + out
        rc1, o1 = sh('/venv/bin/python _demo.py', cwd=wt, timeout=900)
        res['demo_changed_exit'] = rc1
        res['demo_output_tail'] = o1[-600:]
        if not a.notests:
            base = json.load(open('/root/.vp/BASELINE.json'))
            ids = [t.replace('.', '/', t.count('.') - 0).replace('::', '.py::', 1) for t in base['stable_pass']]
            ids = []
            for t in base['stable_pass']:
                mod, fn = t.split('::')
                ids.append(mod.replace('.', '/') + '.py::' + fn)
            t0 = time.time()
            rc, out = sh('/venv/bin/python -m pytest -q -p no:cacheprovider --timeout=900 ' + ' '.join(ids), cwd=wt, timeout=2400)
            m = re.search(r'(\d+) passed', out)
            f = re.search(r'(\d+) failed', out)
            res['stable_tests'] = dict(passed=int(m.group(1)) if m else 0, failed=int(f.group(1)) if f else 0, wall=round(time.time() - t0),
                                       failed_ids=re.findall(r'^FAILED (\S+)', out, flags=re.M))
        props = a.props or meta.get('property')
        if props == 'all':
            props = ','.join('C%02d' % i for i in range(1, 21))
        env = dict(os.environ, VERIF_REPO=wt)
        res['checks'] = {}
        for p in props.split(','):
            t0 = time.time()
            rc, out = sh('/venv/bin/python harness/vcheck.py %s --tier %s' % (p, a.tier), cwd=V, env=env, timeout=3000)
            viol = [l for l in out.splitlines() if l.startswith('VIOLATION')]
            res['checks'][p] = dict(exit=rc, violation=viol[0] if viol else None, last=out.strip().splitlines()[-1][:200] if out.strip() else '', wall=round(time.time() - t0))
            if viol:
                rp = viol[0].split('replay=')[1].split(' ')[0]
                try:
                    d = json.load(open(rp))
                    first = (d.get('failures') or [None])[0]
                    res['checks'][p]['first_failure'] = dict(site=first['site'], what=first['what'][:300]) if first else dict(kind=d.get('kind'), broken=d.get('broken_theorems'), n_disagreements=len(d.get('correspondence_disagreements') or []))
                except Exception as e:
                    res['checks'][p]['first_failure'] = 'unreadable replay: %r' % e
    finally:
        sh('git -C /repo worktree remove --force %s' % wt)
        sh('/venv/bin/python harness/extract.py', cwd=V)
        sh('git checkout -- lean/PyCliffordModel/Generated', cwd=V)
    old = os.path.join(seed, 'result.json')
    if a.notests and os.path.exists(old):
        try:
            prev = json.load(open(old))
            if 'stable_tests' in prev:
                res['stable_tests'] = prev['stable_tests']
            for k, v in (prev.get('checks') or {}).items():
                res['checks'].setdefault(k, v)
        except Exception:
            pass
    json.dump(res, open(old, 'w'), indent=1)
    print(json.dumps(res, indent=1))


if __name__ == '__main__':
    main()
