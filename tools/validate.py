#!/usr/bin/env python3
"""validate MANIFEST.json and evidence/*.json against the schemas (run with python3-vt: has jsonschema)"""
import json, glob, sys
import jsonschema
ok = True
m = json.load(open('/verif/MANIFEST.json'))
try:
    jsonschema.validate(m, json.load(open('/root/.vp/MANIFEST.schema.json')))
    print('MANIFEST ok: %d checks, %d not_applicable' % (len(m['checks']), len(m.get('not_applicable', []))))
except Exception as e:
    ok = False; print('MANIFEST INVALID', e)
es = json.load(open('/root/.vp/EVIDENCE.schema.json'))
for f in sorted(glob.glob('/verif/evidence/*.json')):
    try:
        jsonschema.validate(json.load(open(f)), es); print('ok', f)
    except Exception as e:
        ok = False; print('INVALID', f, str(e)[:300])
sys.exit(0 if ok else 1)
