#!/bin/bash
# run every registered quick (or thorough: TIER=thorough) check, P at a time; summary at the end
cd "$(dirname "$0")/.."
TIER=${TIER:-quick}; P=${P:-5}
mkdir -p /tmp/verif_runall
for i in $(seq -w 1 20); do echo C$i; done | xargs -P $P -I{} bash -c "/venv/bin/python harness/vcheck.py {} --tier $TIER > /tmp/verif_runall/{}.log 2>&1; echo {} exit=\$? \$(tail -1 /tmp/verif_runall/{}.log | cut -c1-160)"
